(** C08.Spec — the authorization rules of room versions 1-11 as the Matrix specification states
    them (DESIGN.md Appendix A.4), parameterised by the room version *number* only.
    Written from the rule text, not from the code: no reference to [Gen] tables or to [Model].

    Readings fixed here (where A.4 is silent):
    - "A malformed field that a rule has to read makes the event rejected": a rule (one bullet
      of A.4) reads every field it names once control reaches it; [need x <- e ;; k] rejects
      when [e] is malformed.
    - Optional properties whose *presence* a rule tests ([creator] in rule 1, [m.federate],
      [third_party_invite], [join_authorised_via_users_server], [public_key]): a [null] value
      counts as absent.  Level fields and maps: [null] is malformed.
    - Surrounding white space of a string-typed level (v1-v9) is Unicode White_Space.
    - "user id", "server name": the predicates [uid_ok], [sn_ok] of the identifier grammar
      (property C10), parameters of this section.  [verify kid sig pk signed]: signature [sig]
      with key id [kid] over [signed] verifies under the base64 public key [pk] (property C02). *)
From Base Require Import Prelude Sx Json.
From C08 Require Import Types.

Notation "'need' x '<-' e ';;' k" :=
  (match e with Some x => k | None => false end) (at level 200, x pattern, right associativity).
Notation "'get' x '<-' e ';;' k" :=
  (match e with Some x => k | None => None end) (at level 200, x pattern, right associativity).

(** ** Level values *)

(** A string that is an integer: optional white space, optional single sign, one or more
    decimal digits, optional white space; within the JSON integer range. *)
Definition string_integer (s : str) : option Z :=
  let t := trim s in
  let signed :=
    match t with
    | b :: w =>
        if b =? 43 then parse_digits w                          (* '+' *)
        else if b =? 45 then option_map Z.opp (parse_digits w)  (* '-' *)
        else parse_digits t
    | [] => None
    end in
  match signed with
  | Some z => if in_int_range z then Some z else None
  | None => None
  end.

(** Level values: integers; in v1-v9 also strings that are integers; from v10 integers only. *)
Definition level_value (v : N) (j : json) : option Z :=
  match j with
  | JInt z => if in_int_range z then Some z else None
  | JStr s => if v <=? 9 then string_integer s else None
  | _ => None
  end.

(** The seven level fields and their defaults: ban kick redact state_default 50;
    invite events_default users_default 0. *)
Inductive level_field := Ban | Kick | Redact | StateDefault | Invite | EventsDefault | UsersDefault.

Definition level_fields : list level_field :=
  [Ban; Kick; Redact; StateDefault; Invite; EventsDefault; UsersDefault].

Definition level_name (f : level_field) : str :=
  match f with
  | Ban => s!"ban" | Kick => s!"kick" | Redact => s!"redact" | StateDefault => s!"state_default"
  | Invite => s!"invite" | EventsDefault => s!"events_default" | UsersDefault => s!"users_default"
  end.

Definition level_default (f : level_field) : Z :=
  match f with
  | Ban | Kick | Redact | StateDefault => 50
  | Invite | EventsDefault | UsersDefault => 0
  end%Z.

Section Spec.
Variable uid_ok : str -> bool.
Variable sn_ok : str -> bool.
Variable verify : str -> str -> str -> obj -> bool.

(** ** Reading the room state *)

Definition string_prop (c : obj) (k : str) : option str :=
  match lookup k c with Some (JStr s) => Some s | _ => None end.

(** An optional property: [null] counts as absent. *)
Definition optional_prop (c : obj) (k : str) : option json :=
  match lookup k c with Some JNull => None | x => x end.

(** Membership of a user: from their m.room.member state event, [leave] if there is none. *)
Definition membership_of (st : state) (u : str) : option str :=
  match st (t_member, u) with
  | None => Some s!"leave"
  | Some e => string_prop (e_content e) s!"membership"
  end.

(** The room's join rule (none without a join-rules event). *)
Definition join_rule_of (st : state) : option str :=
  match st (t_join_rules, []) with
  | None => None
  | Some e => string_prop (e_content e) s!"join_rule"
  end.

(** The raw value of a level field of a power-levels event: absent, or a level value. *)
Definition raw_level (v : N) (p : event) (f : level_field) : option (option Z) :=
  match lookup (level_name f) (e_content p) with
  | None => Some None
  | Some j => match level_value v j with Some z => Some (Some z) | None => None end
  end.

Definition effective (o : option Z) (f : level_field) : Z :=
  match o with Some z => z | None => level_default f end.

(** Effective level of a field: its value, its default when absent or when the room has no
    power-levels event. *)
Definition level_of_field (v : N) (pl : option event) (f : level_field) : option Z :=
  match pl with
  | None => Some (level_default f)
  | Some p => get o <- raw_level v p f ;; Some (effective o f)
  end.

(** A map of levels ([events], [notifications], [users]): absent, or an object all of whose keys
    satisfy [keyok] and all of whose values are level values. *)
Definition level_map (v : N) (keyok : str -> bool) (p : event) (name : str)
  : option (option (amap Z)) :=
  match lookup name (e_content p) with
  | None => Some None
  | Some (JObj m) =>
      if forallb (fun kv => keyok (fst kv)) m then
        match map_opt (fun kv => match level_value v (snd kv) with
                                 | Some z => Some (fst kv, z) | None => None end) m with
        | Some l => Some (Some l)
        | None => None
        end
      else None
  | Some _ => None
  end.

Definition all_keys (_ : str) : bool := true.

(** The room creator: [content.creator] in v1-v10, the create event's sender in v11. *)
Definition creator_of (v : N) (ce : event) : option str :=
  if v <=? 10 then
    match string_prop (e_content ce) s!"creator" with
    | Some s => if uid_ok s then Some s else None
    | None => None
    end
  else Some (e_sender ce).

(** Power level of a user: [users[user]], else [users_default], else 0; without a power-levels
    event: 100 for the creator, 0 otherwise. *)
Definition level_of_user (v : N) (pl : option event) (cr u : str) : option Z :=
  match pl with
  | None => Some (if str_eqb u cr then 100 else 0)%Z
  | Some p =>
      get users <- level_map v uid_ok p s!"users" ;;
      match olookup u users with
      | Some z => Some z
      | None => level_of_field v pl UsersDefault
      end
  end.

(** Required level of an event: [events[type]], else [state_default] for state events,
    [events_default] otherwise. *)
Definition required_level (v : N) (pl : option event) (ev : event) : option Z :=
  let fallback := match e_skey ev with Some _ => StateDefault | None => EventsDefault end in
  match pl with
  | None => Some (level_default fallback)
  | Some p =>
      get events <- level_map v all_keys p s!"events" ;;
      match olookup (e_type ev) events with
      | Some z => Some z
      | None => level_of_field v pl fallback
      end
  end.

(** ** Rule 1: m.room.create *)
Definition rule_create (v : N) (ev : event) : bool :=
  match e_prev ev with
  | _ :: _ => false
  | [] =>
      match after_colon (e_room ev) with
      | None => false
      | Some sv =>
          sn_ok sv && str_eqb sv (server_of (e_sender ev))
          && (if v <=? 10 then
                match optional_prop (e_content ev) s!"creator" with Some _ => true | None => false end
              else true)
      end
  end.

(** ** Rule 5: m.room.member *)

(** join *)
Definition rule_join (v : N) (ev : event) (target : str) (ce : event) (st : state) : bool :=
  need cr <- creator_of v ce ;;
  (* (a) *)
  if match e_prev ev with [p] => str_eqb p (e_id ce) | _ => false end && str_eqb target cr then true else
  (* (b) *)
  if negb (str_eqb (e_sender ev) target) then false else
  (* (c) *)
  need m <- membership_of st target ;;
  if str_eqb m s!"ban" then false else
  need jr <- join_rule_of st ;;
  let invited_or_joined := str_eqb m s!"invite" || str_eqb m s!"join" in
  (* (d) *)
  if (str_eqb jr s!"invite" || (7 <=? v) && str_eqb jr s!"knock") && invited_or_joined then true else
  (* (e) *)
  if (8 <=? v) && str_eqb jr s!"restricted" || (10 <=? v) && str_eqb jr s!"knock_restricted" then
    if invited_or_joined then true else
    match optional_prop (e_content ev) s!"join_authorised_via_users_server" with
    | Some (JStr au) =>
        if uid_ok au then
          need am <- membership_of st au ;;
          if str_eqb am s!"join" then
            let pl := st (t_power, []) in
            need al <- level_of_user v pl cr au ;;
            need il <- level_of_field v pl Invite ;;
            (il <=? al)%Z
          else false
        else false
    | _ => false
    end
  else
  (* (f), (g) *)
  str_eqb jr s!"public".

(** invite with content.third_party_invite *)
Definition key_of_entry (j : json) : option str :=
  match j with
  | JObj m => string_prop m s!"public_key"
  | _ => None
  end.

Definition tpi_public_keys (te : event) : option (list str) :=
  let c := e_content te in
  get first <- match optional_prop c s!"public_key" with
                | None => Some []
                | Some (JStr s) => Some [s]
                | Some _ => None
                end ;;
  get rest <- match lookup s!"public_keys" c with
               | None => Some []
               | Some (JArr l) => map_opt key_of_entry l
               | Some _ => None
               end ;;
  Some (first ++ rest).

(** "any signature in [signed] verifies under any of that event's public keys". *)
Definition some_signature_verifies (signatures : obj) (keys : list str) (signed : obj) : bool :=
  existsb (fun entity =>
    match snd entity with
    | JObj sigs =>
        existsb (fun ks =>
          match snd ks with
          | JStr sg => existsb (fun pk => verify (fst ks) sg pk signed) keys
          | _ => false
          end) sigs
    | _ => false
    end) signatures.

Definition rule_third_party_invite (ev : event) (tpi : json) (target : str) (st : state) : bool :=
  need m <- membership_of st target ;;
  if str_eqb m s!"ban" then false else
  match tpi with
  | JObj t =>
      match lookup s!"signed" t with
      | Some (JObj signed) =>
          need token <- string_prop signed s!"token" ;;
          need mxid <- string_prop signed s!"mxid" ;;
          if negb (str_eqb mxid target) then false else
          match st (t_tpi, token) with
          | None => false
          | Some te =>
              if negb (str_eqb (e_sender ev) (e_sender te)) then false else
              need keys <- tpi_public_keys te ;;
              match lookup s!"signatures" signed with
              | Some (JObj sigs) => some_signature_verifies sigs keys signed
              | _ => false
              end
          end
      | _ => false
      end
  | _ => false
  end.

(** invite otherwise *)
Definition rule_invite (v : N) (ev : event) (target : str) (ce : event) (st : state) : bool :=
  need sm <- membership_of st (e_sender ev) ;;
  if negb (str_eqb sm s!"join") then false else
  need tm <- membership_of st target ;;
  if str_eqb tm s!"join" || str_eqb tm s!"ban" then false else
  need cr <- creator_of v ce ;;
  let pl := st (t_power, []) in
  need sl <- level_of_user v pl cr (e_sender ev) ;;
  need il <- level_of_field v pl Invite ;;
  (il <=? sl)%Z.

(** leave *)
Definition rule_leave (v : N) (ev : event) (target : str) (ce : event) (st : state) : bool :=
  need sm <- membership_of st (e_sender ev) ;;
  if str_eqb (e_sender ev) target then
    str_eqb sm s!"invite" || str_eqb sm s!"join" || (7 <=? v) && str_eqb sm s!"knock"
  else
  if negb (str_eqb sm s!"join") then false else
  need cr <- creator_of v ce ;;
  let pl := st (t_power, []) in
  need tm <- membership_of st target ;;
  need sl <- level_of_user v pl cr (e_sender ev) ;;
  need bl <- level_of_field v pl Ban ;;
  if str_eqb tm s!"ban" && (sl <? bl)%Z then false else
  need kl <- level_of_field v pl Kick ;;
  need tl <- level_of_user v pl cr target ;;
  (kl <=? sl)%Z && (tl <? sl)%Z.

(** ban *)
Definition rule_ban (v : N) (ev : event) (target : str) (ce : event) (st : state) : bool :=
  need sm <- membership_of st (e_sender ev) ;;
  if negb (str_eqb sm s!"join") then false else
  need cr <- creator_of v ce ;;
  let pl := st (t_power, []) in
  need sl <- level_of_user v pl cr (e_sender ev) ;;
  need bl <- level_of_field v pl Ban ;;
  need tl <- level_of_user v pl cr target ;;
  (bl <=? sl)%Z && (tl <? sl)%Z.

(** knock (from v7) *)
Definition rule_knock (v : N) (ev : event) (target : str) (st : state) : bool :=
  need jr <- join_rule_of st ;;
  if negb (str_eqb jr s!"knock" || (10 <=? v) && str_eqb jr s!"knock_restricted") then false else
  if negb (str_eqb (e_sender ev) target) then false else
  need sm <- membership_of st (e_sender ev) ;;
  negb (str_eqb sm s!"ban" || str_eqb sm s!"invite" || str_eqb sm s!"join").

Definition rule_member (v : N) (ev : event) (ce : event) (st : state) : bool :=
  match e_skey ev with
  | None => false
  | Some target =>
      if negb (uid_ok target) then false else
      need m <- string_prop (e_content ev) s!"membership" ;;
      if str_eqb m s!"join" then rule_join v ev target ce st
      else if str_eqb m s!"invite" then
        match optional_prop (e_content ev) s!"third_party_invite" with
        | Some tpi => rule_third_party_invite ev tpi target st
        | None => rule_invite v ev target ce st
        end
      else if str_eqb m s!"leave" then rule_leave v ev target ce st
      else if str_eqb m s!"ban" then rule_ban v ev target ce st
      else if str_eqb m s!"knock" then (if 7 <=? v then rule_knock v ev target st else false)
      else false
  end.

(** ** Rule 10: m.room.power_levels *)

(** Entries of a level map: changed or removed with a current value the rule rejects;
    added or changed with a new value above the sender's level. *)
Definition entries_rule (current new : option (amap Z)) (sender_level : Z)
    (current_blocks : str -> Z -> bool) : bool :=
  forallb (fun k =>
    match olookup k current, olookup k new with
    | None, None => true
    | None, Some n => (n <=? sender_level)%Z                                   (* added *)
    | Some c, None => negb (current_blocks k c)                                (* removed *)
    | Some c, Some n =>
        (c =? n)%Z || (negb (current_blocks k c) && (n <=? sender_level)%Z)    (* changed *)
    end) (okeys current ++ okeys new).

Definition rule_power_levels (v : N) (ev : event) (current : option event) (sender_level : Z) : bool :=
  (* from v10: level fields and values of events / notifications are integers *)
  (if 10 <=? v then
     forallb (fun f => match raw_level v ev f with Some _ => true | None => false end) level_fields
     && (match level_map v all_keys ev s!"events" with Some _ => true | None => false end)
     && (match level_map v all_keys ev s!"notifications" with Some _ => true | None => false end)
   else true)
  &&
  (* users: an object of valid user ids to level values *)
  (match level_map v uid_ok ev s!"users" with Some _ => true | None => false end)
  &&
  match current with
  | None => true
  | Some cur =>
      (* the seven fields: added, changed or removed *)
      forallb (fun f =>
        need c <- raw_level v cur f ;;
        need n <- raw_level v ev f ;;
        oZ_eqb c n || ((effective c f <=? sender_level)%Z && (effective n f <=? sender_level)%Z))
        level_fields
      &&
      (need ce <- level_map v all_keys cur s!"events" ;;
       need ne <- level_map v all_keys ev s!"events" ;;
       entries_rule ce ne sender_level (fun _ c => (sender_level <? c)%Z))
      &&
      (if 6 <=? v then
         need cn <- level_map v all_keys cur s!"notifications" ;;
         need nn <- level_map v all_keys ev s!"notifications" ;;
         entries_rule cn nn sender_level (fun _ c => (sender_level <? c)%Z)
       else true)
      &&
      (need cu <- level_map v uid_ok cur s!"users" ;;
       need nu <- level_map v uid_ok ev s!"users" ;;
       entries_rule cu nu sender_level
         (fun u c => negb (str_eqb u (e_sender ev)) && (sender_level <=? c)%Z))
  end.

(** ** Rule 11: m.room.redaction in v1-v2 *)
Definition rule_redaction (v : N) (ev : event) (pl : option event) (sender_level : Z) : bool :=
  need rl <- level_of_field v pl Redact ;;
  if (rl <=? sender_level)%Z then true else
  match eid_server (e_id ev), e_redacts ev with
  | Some a, Some red => match eid_server red with Some b => str_eqb a b | None => false end
  | _, _ => false
  end.

(** ** The rules in order *)
Definition spec_auth (v : N) (ev : event) (st : state) : bool :=
  (* 1 *)
  if str_eqb (e_type ev) t_create then rule_create v ev else
  (* 2 *)
  match st (t_create, []) with
  | None => false
  | Some ce =>
      if negb (existsb (str_eqb (e_id ce)) (e_auth ev)) then false else
      (* 3 *)
      need fed <- match optional_prop (e_content ce) s!"m.federate" with
                  | None => Some true | Some (JBool b) => Some b | Some _ => None end ;;
      if negb fed && negb (str_eqb (server_of (e_sender ev)) (server_of (e_sender ce))) then false else
      (* 4 *)
      if (v <=? 5) && str_eqb (e_type ev) t_aliases then
        match e_skey ev with
        | Some k => str_eqb k (server_of (e_sender ev))
        | None => false
        end
      else
      (* 5 *)
      if str_eqb (e_type ev) t_member then rule_member v ev ce st else
      (* 6 *)
      need sm <- membership_of st (e_sender ev) ;;
      if negb (str_eqb sm s!"join") then false else
      need cr <- creator_of v ce ;;
      let pl := st (t_power, []) in
      need sl <- level_of_user v pl cr (e_sender ev) ;;
      (* 7 *)
      if str_eqb (e_type ev) t_tpi then
        need il <- level_of_field v pl Invite ;; (il <=? sl)%Z
      else
      (* 8 *)
      need req <- required_level v pl ev ;;
      if (sl <? req)%Z then false else
      (* 9 *)
      if match e_skey ev with
         | Some k => starts_with [at_sign] k && negb (str_eqb k (e_sender ev))
         | None => false
         end then false else
      (* 10 *)
      if str_eqb (e_type ev) t_power then rule_power_levels v ev pl sl else
      (* 11 *)
      if (v <=? 2) && str_eqb (e_type ev) t_redaction then rule_redaction v ev pl sl else
      (* 12 *)
      true
  end.

(** ** Known deviation classes (open findings; see known_findings.d/C08.json).

    [pl_strict]: in v1-v9 the rules validate only [users] of a new power-levels event up front;
    ruma validates every level field, [events] and [notifications] in every version, so it rejects
    e.g. an initial power-levels event with an ill-typed [ban], which the rules allow.
    The class: a v1-v9 power-levels event one of whose own level fields / [events] /
    [notifications] is ill-typed. *)
Definition own_levels_typed (v : N) (ev : event) : bool :=
  forallb (fun f => match raw_level v ev f with Some _ => true | None => false end) level_fields
  && (match level_map v all_keys ev s!"events" with Some _ => true | None => false end)
  && (match level_map v all_keys ev s!"notifications" with Some _ => true | None => false end).

Definition pl_strict (v : N) (ev : event) : bool :=
  (v <=? 9) && str_eqb (e_type ev) t_power && negb (own_levels_typed v ev).

(** [serde_shapes]: a serde-derived struct is also accepted as a JSON array of its fields, and
    the signature loop stops at the first non-object member of [signed.signatures]:
    a member invite whose [third_party_invite] is an array, or whose [signed.signatures] has a
    non-object member, or whose m.room.third_party_invite state event has an array inside
    [public_keys]. *)
Definition has_array (l : list json) : bool :=
  existsb (fun j => match j with JArr _ => true | _ => false end) l.

Definition serde_shapes (ev : event) (st : state) : bool :=
  str_eqb (e_type ev) t_member &&
  match lookup s!"third_party_invite" (e_content ev) with
  | Some (JArr _) => true
  | Some (JObj t) =>
      match lookup s!"signed" t with
      | Some (JObj signed) =>
          (match lookup s!"signatures" signed with
           | Some (JObj sigs) => existsb (fun kv => match snd kv with JObj _ => false | _ => true end) sigs
           | _ => false
           end)
          ||
          (match string_prop signed s!"token" with
           | Some token =>
               match st (t_tpi, token) with
               | Some te => match lookup s!"public_keys" (e_content te) with
                            | Some (JArr l) => has_array l
                            | _ => false
                            end
               | None => false
               end
           | None => false
           end)
      | _ => false
      end
  | _ => false
  end.

End Spec.
