(** C08.Codec — decoding of correspondence cases (events, state, signature oracle) from the
    wire format.  Shared by the C08 and C09 runners. *)
From Base Require Import Prelude Sx Json.
From C08 Require Import Types.

(** event = ( id room sender type skey? content ( prev.. ) ( auth.. ) redacts? ) *)
Definition event_of_sx (x : sx) : option event :=
  match x with
  | SL [i; ro; se; ty; sk; co; pr; au; re] =>
      match as_str i, as_str ro, as_str se, as_str ty, as_opt as_str sk, obj_of_sx co,
            as_list_of as_str pr, as_list_of as_str au, as_opt as_str re with
      | Some i, Some ro, Some se, Some ty, Some sk, Some co, Some pr, Some au, Some re =>
          Some {| e_id := i; e_room := ro; e_sender := se; e_type := ty; e_skey := sk;
                  e_content := co; e_prev := pr; e_auth := au; e_redacts := re |}
      | _, _, _, _, _, _, _, _, _ => None
      end
  | _ => None
  end.

(** state = ( ( type key event ) ... ); the first entry for a key wins. *)
Definition entry_of_sx (x : sx) : option (key * event) :=
  match x with
  | SL [t; k; e] =>
      match as_str t, as_str k, event_of_sx e with
      | Some t, Some k, Some e => Some ((t, k), e)
      | _, _, _ => None
      end
  | _ => None
  end.

Fixpoint state_lookup (l : list (key * event)) (k : key) : option event :=
  match l with
  | [] => None
  | (k', e) :: l' => if key_eqb k k' then Some e else state_lookup l' k
  end.

Definition state_of_sx (x : sx) : option (list (key * event)) := as_list_of entry_of_sx x.

(** A perturbed state, as overrides of a base state: ( ( type key event? ) ... ); an entry
    without event removes the key. *)
Definition override_of_sx (x : sx) : option (key * option event) :=
  match x with
  | SL [t; k; e] =>
      match as_str t, as_str k, as_opt event_of_sx e with
      | Some t, Some k, Some e => Some ((t, k), e)
      | _, _, _ => None
      end
  | _ => None
  end.

Fixpoint override_lookup (ov : list (key * option event)) (base : state) (k : key) : option event :=
  match ov with
  | [] => base k
  | (k', e) :: ov' => if key_eqb k k' then e else override_lookup ov' base k
  end.

Definition overrides_of_sx (x : sx) : option (list (key * option event)) := as_list_of override_of_sx x.

(** oracle = ( ( key_id signature public_key ) ... ): the triples for which the
    implementation's signature check succeeds on the event's [signed] object. *)
Definition triple_of_sx (x : sx) : option (str * str * str) :=
  match x with
  | SL [a; b; c] =>
      match as_str a, as_str b, as_str c with
      | Some a, Some b, Some c => Some (a, b, c)
      | _, _, _ => None
      end
  | _ => None
  end.

Definition oracle_of_sx (x : sx) : option (list (str * str * str)) := as_list_of triple_of_sx x.

Definition oracle_verify (o : list (str * str * str)) (kid sg pk : str) (_ : obj) : bool :=
  existsb (fun t => match t with (a, b, c) => str_eqb a kid && str_eqb b sg && str_eqb c pk end) o.

Definition sx_key (k : key) : sx := SL [SS (fst k); SS (snd k)].

(** Equality of events and of state entries (used by the C09 runner to decide whether a
    perturbed state agrees with the base state on a set of keys). *)
Definition olist_eqb (a b : list str) : bool :=
  (fix go (a b : list str) : bool :=
     match a, b with
     | [], [] => true
     | x :: a', y :: b' => str_eqb x y && go a' b'
     | _, _ => false
     end) a b.

Definition event_eqb (a b : event) : bool :=
  str_eqb (e_id a) (e_id b) && str_eqb (e_room a) (e_room b) && str_eqb (e_sender a) (e_sender b)
  && str_eqb (e_type a) (e_type b) && ostr_eqb (e_skey a) (e_skey b)
  && json_eqb (JObj (e_content a)) (JObj (e_content b))
  && olist_eqb (e_prev a) (e_prev b) && olist_eqb (e_auth a) (e_auth b)
  && ostr_eqb (e_redacts a) (e_redacts b).

Definition oevent_eqb (a b : option event) : bool :=
  match a, b with
  | Some x, Some y => event_eqb x y
  | None, None => true
  | _, _ => false
  end.
