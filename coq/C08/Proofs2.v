(** C08.Proofs2 — the accessors of events/*.rs against the specification's readings of the
    room state: level fields, level maps, creator, user level, required level, membership and
    join-rule reads. *)
From Base Require Import Prelude Sx Json Rules.
From Gen Require Import TypeAliases.
From C08 Require Import Types Model Spec Known Proofs1.
From Coq Require Import ZifyBool ZifyN.

(** The code's field enum against the specification's. *)
Definition fmap (f : plfield) : level_field :=
  match f with
  | FUsersDefault => UsersDefault | FEventsDefault => EventsDefault | FStateDefault => StateDefault
  | FBan => Ban | FRedact => Redact | FKick => Kick | FInvite => Invite
  end.

Lemma field_name_fmap f : field_name f = level_name (fmap f).
Proof. destruct f; reflexivity. Qed.
Lemma field_default_fmap f : field_default f = level_default (fmap f).
Proof. destruct f; reflexivity. Qed.

Section Acc.
Variable uid_ok : str -> bool.
Variable sn_ok : str -> bool.
Variable v : N.
Variable r : auth_rules.
Hypothesis A : rules_agree v r.

Lemma get_as_int_spec p f : get_as_int r p f = raw_level v p (fmap f).
Proof.
  unfold get_as_int, raw_level. rewrite field_name_fmap.
  destruct (lookup (level_name (fmap f)) (e_content p)); [|reflexivity].
  now rewrite (pl_int_spec v r j A).
Qed.

Lemma with_default_spec o f : with_default o f = effective o (fmap f).
Proof. unfold with_default, effective. now rewrite field_default_fmap. Qed.

Lemma get_as_int_or_default_spec p f :
  get_as_int_or_default r p f = level_of_field v (Some p) (fmap f).
Proof.
  unfold get_as_int_or_default, level_of_field. rewrite get_as_int_spec.
  destruct (raw_level v p (fmap f)) as [[z|]|]; cbn [effective]; try reflexivity.
  now rewrite field_default_fmap.
Qed.

Lemma int_or_default_spec pl f : int_or_default r pl f = level_of_field v pl (fmap f).
Proof.
  destruct pl as [p|]; cbn [int_or_default]; [apply get_as_int_or_default_spec|].
  cbn [level_of_field]. now rewrite field_default_fmap.
Qed.

Lemma int_map_entries_spec keyok m :
  int_map_entries r keyok m =
  if forallb (fun kv => keyok (fst kv)) m then
    map_opt (fun kv => match level_value v (snd kv) with
                       | Some z => Some (fst kv, z) | None => None end) m
  else None.
Proof.
  induction m as [|[k j] m IH]; [reflexivity|].
  cbn [int_map_entries forallb map_opt fst snd]. rewrite IH, (pl_int_spec v r j A).
  destruct (keyok k); cbn [andb]; [|reflexivity].
  destruct (forallb (fun kv => keyok (fst kv)) m).
  - destruct (level_value v j); [|reflexivity].
    destruct (map_opt _ m); reflexivity.
  - destruct (level_value v j); reflexivity.
Qed.

Lemma get_as_int_map_spec keyok p name :
  get_as_int_map r keyok p name = level_map v keyok p name.
Proof.
  unfold get_as_int_map, level_map. destruct (lookup name (e_content p)) as [j|]; [|reflexivity].
  destruct j; try reflexivity. rewrite int_map_entries_spec.
  destruct (forallb _ m); [|reflexivity]. destruct (map_opt _ m); reflexivity.
Qed.

Lemma creator_spec ce : creator uid_ok r ce = creator_of uid_ok v ce.
Proof.
  unfold creator, creator_of, string_prop. rewrite (ra_create_sender _ _ A).
  destruct (v <=? 10); cbn [negb]; [|reflexivity].
  destruct (lookup _ (e_content ce)) as [j|]; [|reflexivity]. destruct j; reflexivity.
Qed.

Lemma user_power_level_spec pl u cr :
  user_power_level uid_ok r pl u cr = level_of_user uid_ok v pl cr u.
Proof.
  destruct pl as [p|]; cbn [user_power_level level_of_user]; [|reflexivity].
  unfold ev_user_power_level, pl_users. rewrite get_as_int_map_spec.
  destruct (level_map v uid_ok p _) as [users|]; [|reflexivity].
  destruct (olookup u users); [reflexivity|]. apply get_as_int_or_default_spec.
Qed.

(** ** The [events] map: keys through [TimelineEventType::from] *)
Lemma fold_left_ext {X Y} (f g : X -> Y -> X) l a :
  (forall y, In y l -> forall x, f x y = g x y) -> fold_left f l a = fold_left g l a.
Proof.
  revert a; induction l as [|y l IH]; intros a H; cbn [fold_left]; [reflexivity|].
  rewrite (H y (or_introl eq_refl)). apply IH. intros; apply H; now right.
Qed.

Lemma canon_map_id (m : amap Z) :
  sorted m -> (forall kz, In kz m -> is_alias (fst kz) = false) -> canon_map m = m.
Proof.
  intros Hs Ha. unfold canon_map.
  rewrite (fold_left_ext _ (fun acc kv => insert (fst kv) (snd kv) acc)).
  - exact (rebuild_sorted_id m Hs).
  - intros kz Hin acc. specialize (Ha kz Hin). unfold is_alias in Ha. unfold canon_type.
    now destruct (lookup (fst kz) type_aliases).
Qed.

Lemma int_map_entries_keys keyok (m : obj) m' :
  int_map_entries r keyok m = Some m' -> List.map fst m' = List.map fst m.
Proof.
  revert m'; induction m as [|[k j] m IH]; intros m'; cbn [int_map_entries].
  - now intros [= <-].
  - destruct (keyok k); [|discriminate]. destruct (pl_int r j); [|discriminate].
    destruct (int_map_entries r keyok m) as [rest|]; [|discriminate].
    intros [= <-]. cbn [List.map fst]. now rewrite (IH rest eq_refl).
Qed.

Lemma sorted_same_keys {X Y} (m1 : amap X) (m2 : amap Y) :
  List.map fst m1 = List.map fst m2 -> sorted m1 -> sorted m2.
Proof.
  revert m2; induction m1 as [|[k x] m1 IH]; intros [|[k2 y] m2] E; try discriminate; [trivial|].
  cbn [List.map fst] in E. injection E as <- E. cbn [sorted]. intros [G S]. split; [|now apply IH].
  intros k' y' Hin. assert (Hk : In k' (List.map fst m2)) by (apply in_map_iff; now exists (k', y')).
  rewrite <- E in Hk. apply in_map_iff in Hk as [[k'' x''] [<- Hin']]. exact (G _ _ Hin').
Qed.

(** What the theorem assumes about a power-levels event whose [events] is read. *)
Definition events_ok (pl : option event) : Prop :=
  match pl with
  | Some p => events_sorted p = true /\ has_alias_key p = false
  | None => True
  end.

Lemma pl_events_spec p :
  events_sorted p = true -> has_alias_key p = false ->
  pl_events r p = level_map v all_keys p s!"events".
Proof.
  unfold events_sorted, has_alias_key, pl_events. intros Hs Ha.
  rewrite <- get_as_int_map_spec. unfold get_as_int_map, any_key, all_keys.
  destruct (lookup s!"events" (e_content p)) as [j|]; [|reflexivity].
  destruct j; try reflexivity.
  destruct (int_map_entries r (fun _ => true) m) as [m'|] eqn:E; [|reflexivity].
  rewrite canon_map_id; [reflexivity| |].
  - eapply sorted_same_keys; [symmetry; exact (int_map_entries_keys _ _ _ E)|now apply sortedb_sorted].
  - intros [k z] Hin. cbn [fst].
    assert (Hk : In k (List.map fst m)).
    { rewrite <- (int_map_entries_keys _ _ _ E). apply in_map_iff. now exists (k, z). }
    apply in_map_iff in Hk as [[k' j'] [Ek Hin']]. cbn [fst] in Ek. subst k'.
    destruct (is_alias k) eqn:Eal; [|reflexivity].
    assert (existsb (fun kv => is_alias (fst kv)) m = true).
    { apply existsb_exists. exists (k, j'). now split. }
    congruence.
Qed.

Lemma is_some_pl_events p :
  match pl_events r p with Some _ => true | None => false end
  = match level_map v all_keys p s!"events" with Some _ => true | None => false end.
Proof.
  unfold pl_events. rewrite <- get_as_int_map_spec. unfold any_key, all_keys.
  destruct (get_as_int_map r (fun _ => true) p s!"events") as [[m|]|]; reflexivity.
Qed.

Lemma event_power_level_spec pl ev :
  events_ok pl ->
  event_power_level r pl (e_type ev) (e_skey ev) = required_level v pl ev.
Proof.
  intros Hok. destruct pl as [p|]; cbn [event_power_level required_level].
  - destruct Hok as [Hs Ha]. rewrite (pl_events_spec p Hs Ha).
    destruct (level_map v _ p _) as [events|]; [|reflexivity].
    destruct (olookup (e_type ev) events); [reflexivity|].
    rewrite get_as_int_or_default_spec. destruct (e_skey ev); reflexivity.
  - rewrite field_default_fmap. destruct (e_skey ev); reflexivity.
Qed.

(** ** Reads of the state *)
Lemma run_read_membership u k st :
  run (read_membership u k) st =
  match membership_of st u with Some m => run (k m) st | None => false end.
Proof.
  unfold read_membership, membership_of, k_member. cbn [run].
  destruct (st (t_member, u)) as [e|]; [|reflexivity].
  unfold ev_membership, get_str, string_prop.
  destruct (lookup _ (e_content e)) as [j|]; [|reflexivity]. destruct j; reflexivity.
Qed.

Lemma run_read_join_rule k st :
  run (read_join_rule k) st =
  match join_rule_of st with Some jr => run (k jr) st | None => false end.
Proof.
  unfold read_join_rule, join_rule_of, k_join_rules. cbn [run].
  destruct (st (t_join_rules, [])) as [e|]; [|reflexivity].
  unfold get_str, string_prop.
  destruct (lookup _ (e_content e)) as [j|]; [|reflexivity]. destruct j; reflexivity.
Qed.

End Acc.
