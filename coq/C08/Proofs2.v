(** C08.Proofs2 — the accessors of events/*.rs against the specification's readings of the
    room state: level fields, level maps, creator, user level, required level, membership and
    join-rule reads. *)
From Base Require Import Prelude Sx Json Rules.
From C08 Require Import Types Model Spec Proofs1.
From Coq Require Import ZifyBool ZifyN.

(** The code's field enum against the specification's. *)
Definition fmap (f : plfield) : level_field :=
  match f with
  | FUsersDefault => UsersDefault | FEventsDefault => EventsDefault | FStateDefault => StateDefault
  | FBan => Ban | FRedact => Redact | FKick => Kick | FInvite => Invite
  end.

Lemma field_name_fmap f : field_name f = level_name (fmap f).
Proof. destruct f; reflexivity. Qed.
Lemma field_default_fmap f : field_default f = level_default (fmap f).
Proof. destruct f; reflexivity. Qed.

Section Acc.
Variable uid_ok : str -> bool.
Variable sn_ok : str -> bool.
Variable v : N.
Variable r : auth_rules.
Hypothesis A : rules_agree v r.

Lemma get_as_int_spec p f : get_as_int r p f = raw_level v p (fmap f).
Proof.
  unfold get_as_int, raw_level. rewrite field_name_fmap.
  destruct (lookup (level_name (fmap f)) (e_content p)); [|reflexivity].
  now rewrite (pl_int_spec v r j A).
Qed.

Lemma with_default_spec o f : with_default o f = effective o (fmap f).
Proof. unfold with_default, effective. now rewrite field_default_fmap. Qed.

Lemma get_as_int_or_default_spec p f :
  get_as_int_or_default r p f = level_of_field v (Some p) (fmap f).
Proof.
  unfold get_as_int_or_default, level_of_field. rewrite get_as_int_spec.
  destruct (raw_level v p (fmap f)) as [[z|]|]; cbn [effective]; try reflexivity.
  now rewrite field_default_fmap.
Qed.

Lemma int_or_default_spec pl f : int_or_default r pl f = level_of_field v pl (fmap f).
Proof.
  destruct pl as [p|]; cbn [int_or_default]; [apply get_as_int_or_default_spec|].
  cbn [level_of_field]. now rewrite field_default_fmap.
Qed.

Lemma int_map_entries_spec keyok m :
  int_map_entries r keyok m =
  if forallb (fun kv => keyok (fst kv)) m then
    map_opt (fun kv => match level_value v (snd kv) with
                       | Some z => Some (fst kv, z) | None => None end) m
  else None.
Proof.
  induction m as [|[k j] m IH]; [reflexivity|].
  cbn [int_map_entries forallb map_opt fst snd]. rewrite IH, (pl_int_spec v r j A).
  destruct (keyok k); cbn [andb]; [|reflexivity].
  destruct (forallb (fun kv => keyok (fst kv)) m).
  - destruct (level_value v j); [|reflexivity].
    destruct (map_opt _ m); reflexivity.
  - destruct (level_value v j); reflexivity.
Qed.

Lemma get_as_int_map_spec keyok p name :
  get_as_int_map r keyok p name = level_map v keyok p name.
Proof.
  unfold get_as_int_map, level_map. destruct (lookup name (e_content p)) as [j|]; [|reflexivity].
  destruct j; try reflexivity. rewrite int_map_entries_spec.
  destruct (forallb _ m); [|reflexivity]. destruct (map_opt _ m); reflexivity.
Qed.

Lemma creator_spec ce : creator uid_ok r ce = creator_of uid_ok v ce.
Proof.
  unfold creator, creator_of, string_prop. rewrite (ra_create_sender _ _ A).
  destruct (v <=? 10); cbn [negb]; [|reflexivity].
  destruct (lookup _ (e_content ce)) as [j|]; [|reflexivity]. destruct j; reflexivity.
Qed.

Lemma user_power_level_spec pl u cr :
  user_power_level uid_ok r pl u cr = level_of_user uid_ok v pl cr u.
Proof.
  destruct pl as [p|]; cbn [user_power_level level_of_user]; [|reflexivity].
  unfold ev_user_power_level, pl_users. rewrite get_as_int_map_spec.
  destruct (level_map v uid_ok p _) as [users|]; [|reflexivity].
  destruct (olookup u users); [reflexivity|]. apply get_as_int_or_default_spec.
Qed.

Lemma event_power_level_spec pl ev :
  event_power_level r pl (e_type ev) (e_skey ev) = required_level v pl ev.
Proof.
  destruct pl as [p|]; cbn [event_power_level required_level].
  - unfold pl_events. rewrite get_as_int_map_spec. unfold any_key, all_keys.
    destruct (level_map v _ p _) as [events|]; [|reflexivity].
    destruct (olookup (e_type ev) events); [reflexivity|].
    rewrite get_as_int_or_default_spec. destruct (e_skey ev); reflexivity.
  - rewrite field_default_fmap. destruct (e_skey ev); reflexivity.
Qed.

(** ** Reads of the state *)
Lemma run_read_membership u k st :
  run (read_membership u k) st =
  match membership_of st u with Some m => run (k m) st | None => false end.
Proof.
  unfold read_membership, membership_of, k_member. cbn [run].
  destruct (st (t_member, u)) as [e|]; [|reflexivity].
  unfold ev_membership, get_str, string_prop.
  destruct (lookup _ (e_content e)) as [j|]; [|reflexivity]. destruct j; reflexivity.
Qed.

Lemma run_read_join_rule k st :
  run (read_join_rule k) st =
  match join_rule_of st with Some jr => run (k jr) st | None => false end.
Proof.
  unfold read_join_rule, join_rule_of, k_join_rules. cbn [run].
  destruct (st (t_join_rules, [])) as [e|]; [|reflexivity].
  unfold get_str, string_prop.
  destruct (lookup _ (e_content e)) as [j|]; [|reflexivity]. destruct j; reflexivity.
Qed.

End Acc.
