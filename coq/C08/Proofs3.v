(** C08.Proofs3 — one lemma per rule group: the model of each check of event_auth.rs /
    room_member.rs equals the corresponding rule of the specification. *)
From Base Require Import Prelude Sx Json Rules.
From C08 Require Import Types Model Spec Known Proofs1 Proofs2.
From Coq Require Import ZifyBool ZifyN.

Ltac Zify.zify_post_hook ::= Z.div_mod_to_equations.

Section Rules.
Variable uid_ok : str -> bool.
Variable sn_ok : str -> bool.
Variable verify : str -> str -> str -> obj -> bool.
Variable v : N.
Variable r : auth_rules.
Hypothesis A : rules_agree v r.

(** Rewrite every accessor into the specification's reading. *)
Ltac acc :=
  repeat first
    [ rewrite (run_read_membership)
    | rewrite (run_read_join_rule)
    | rewrite (creator_spec uid_ok v r A)
    | rewrite (user_power_level_spec uid_ok v r A)
    | rewrite (int_or_default_spec v r A)
    | match goal with H : events_ok _ |- _ => rewrite (event_power_level_spec v r A _ _ H) end ].

Ltac find_atom b k :=
  lazymatch b with
  | orb ?a _ => find_atom a k
  | andb ?a _ => find_atom a k
  | negb ?a => find_atom a k
  | _ => k b
  end.

(** Case split on the scrutinee of a [match] of the goal (for a boolean formula: on its
    leftmost atom), innermost-free first. *)
Ltac brk :=
  match goal with
  | |- context [match ?x with _ => _ end] =>
      lazymatch x with
      | context [match _ with _ => _ end] => fail
      | _ => lazymatch type of x with
             | bool => find_atom x ltac:(fun a => destruct a eqn:?)
             | _ => destruct x eqn:?
             end
      end
  end; cbn [andb orb negb]; cbv beta iota.

Ltac norm := repeat progress (acc; cbn [run fmap andb orb negb]; cbv beta iota).
Ltac crunch := norm; repeat (brk; norm).
Ltac gatoms :=
  repeat match goal with
  | |- context [str_eqb ?a ?b] => destruct (str_eqb a b); cbn [orb andb negb]
  end.
Ltac fin := first [reflexivity | discriminate | lia | exfalso; lia | congruence
                  | gatoms; first [reflexivity | lia]].

Lemma create_eq ev : check_room_create sn_ok r ev = rule_create sn_ok v ev.
Proof.
  unfold check_room_create, rule_create, room_server, has_creator, optional_prop.
  rewrite (ra_create_sender _ _ A).
  destruct (e_prev ev); [|reflexivity].
  destruct (after_colon (e_room ev)) as [sv|]; [|reflexivity].
  destruct (sn_ok sv); cbn [andb]; [|reflexivity].
  destruct (str_eqb sv (server_of (e_sender ev))); cbn [negb andb]; [|reflexivity].
  destruct (v <=? 10); cbn [negb andb]; [|reflexivity].
  destruct (lookup _ (e_content ev)) as [j|]; [|reflexivity]. destruct j; reflexivity.
Qed.

Lemma join_eq ev target ce st :
  run (check_room_member_join uid_ok r ev target ce) st = rule_join uid_ok v ev target ce st.
Proof.
  unfold check_room_member_join, rule_join, is.
  rewrite (ra_knocking _ _ A), (ra_restricted _ _ A), (ra_knock_restricted _ _ A).
  unfold join_authorised, optional_prop, k_power.
  crunch; fin.
Qed.

Lemma invite_eq ev target ce st :
  run (read_membership (e_sender ev) (fun sm =>
        if negb (is sm s!"join") then Ret false else
        read_membership target (fun tm =>
          if is tm s!"join" || is tm s!"ban" then Ret false else
          match creator uid_ok r ce with
          | Some cr =>
              Read k_power (fun pl =>
                match user_power_level uid_ok r pl (e_sender ev) cr with
                | Some sl => match int_or_default r pl FInvite with
                             | Some il => Ret (sl >=? il)%Z
                             | None => Ret false
                             end
                | None => Ret false
                end)
          | None => Ret false
          end))) st
  = rule_invite uid_ok v ev target ce st.
Proof. unfold rule_invite, is, k_power. crunch; fin. Qed.

Lemma leave_eq ev target ce st :
  run (check_room_member_leave uid_ok r ev target ce) st = rule_leave uid_ok v ev target ce st.
Proof.
  unfold check_room_member_leave, rule_leave, is, k_power. rewrite (ra_knocking _ _ A).
  crunch; fin.
Qed.

Lemma ban_eq ev target ce st :
  run (check_room_member_ban uid_ok r ev target ce) st = rule_ban uid_ok v ev target ce st.
Proof. unfold check_room_member_ban, rule_ban, is, k_power. crunch; fin. Qed.

Lemma knock_eq ev target st :
  run (check_room_member_knock r ev target) st = rule_knock v ev target st.
Proof.
  unfold check_room_member_knock, rule_knock, is. rewrite (ra_knock_restricted _ _ A).
  crunch; fin.
Qed.

(** ** Third-party invites *)
Definition non_object (kv : str * json) : bool := match snd kv with JObj _ => false | _ => true end.

Lemma verify_entities_spec sigs keys signed :
  existsb non_object sigs = false ->
  verify_entities verify sigs keys signed = some_signature_verifies verify sigs keys signed.
Proof.
  unfold some_signature_verifies.
  induction sigs as [|[k j] sigs IH]; cbn [existsb verify_entities]; [reflexivity|].
  unfold non_object at 1. cbn [snd]. intros H. apply orb_false_iff in H as [Hj Hr].
  destruct j; try discriminate. rewrite (IH Hr). unfold entity_verifies.
  destruct (existsb _ m); reflexivity.
Qed.

Lemma public_keys_spec te :
  (forall l, lookup s!"public_keys" (e_content te) = Some (JArr l) -> has_array l = false) ->
  public_keys te = tpi_public_keys te.
Proof.
  intros H. unfold public_keys, tpi_public_keys, optional_prop.
  assert (Hl : forall l, has_array l = false -> map_opt one_public_key l = map_opt key_of_entry l).
  { induction l as [|j l IH]; [reflexivity|]. unfold has_array. cbn [existsb map_opt].
    intros Hx. apply orb_false_iff in Hx as [Hj Hr]. fold (has_array l) in Hr. rewrite (IH Hr).
    destruct j; try discriminate; try reflexivity. }
  destruct (lookup s!"public_key" (e_content te)) as [j|]; [destruct j|]; try reflexivity;
    (destruct (lookup s!"public_keys" (e_content te)) as [j2|] eqn:E; [|reflexivity];
     destruct j2; try reflexivity; now rewrite (Hl _ (H _ eq_refl))).
Qed.

Lemma tpi_eq ev signed target st t :
  lookup s!"signed" t = Some (JObj signed) ->
  (forall sigs, lookup s!"signatures" signed = Some (JObj sigs) -> existsb non_object sigs = false) ->
  (forall token te l, string_prop signed s!"token" = Some token -> st (t_tpi, token) = Some te ->
     lookup s!"public_keys" (e_content te) = Some (JArr l) -> has_array l = false) ->
  run (check_third_party_invite verify ev signed target) st
  = rule_third_party_invite verify ev (JObj t) target st.
Proof.
  intros Hs Hsig Hpk. unfold check_third_party_invite, rule_third_party_invite, is, k_tpi.
  rewrite Hs. fold (string_prop signed s!"token") (string_prop signed s!"mxid").
  norm. destruct (membership_of st target) as [m|]; [|reflexivity].
  destruct (str_eqb m s!"ban"); [reflexivity|]. cbv beta iota.
  unfold get_str. fold (string_prop signed s!"token") (string_prop signed s!"mxid").
  destruct (string_prop signed s!"token") as [token|] eqn:Et; [|reflexivity].
  destruct (string_prop signed s!"mxid") as [mxid|]; [|reflexivity].
  rewrite (str_eqb_sym target mxid). destruct (str_eqb mxid target); cbn [negb]; [|reflexivity].
  cbn [run]. destruct (st (t_tpi, token)) as [te|] eqn:Ete; [|reflexivity].
  destruct (str_eqb (e_sender ev) (e_sender te)); cbn [negb]; [|reflexivity].
  rewrite (public_keys_spec te (fun l => Hpk token te l eq_refl Ete)).
  destruct (tpi_public_keys te) as [keys|]; [|reflexivity].
  destruct (lookup s!"signatures" signed) as [j|] eqn:Es; [|reflexivity].
  destruct j; try reflexivity. cbn [run]. apply verify_entities_spec. now apply Hsig.
Qed.

(** ** m.room.member: the dispatcher *)
Lemma member_eq ev ce st :
  str_eqb (e_type ev) t_member = true -> serde_shapes ev st = false ->
  run (check_room_member uid_ok verify r ev ce) st = rule_member uid_ok verify v ev ce st.
Proof.
  intros Hty Hsh. unfold serde_shapes in Hsh. rewrite Hty in Hsh. cbn [andb] in Hsh.
  unfold check_room_member, rule_member, is.
  destruct (e_skey ev) as [target|]; [|reflexivity].
  destruct (uid_ok target); cbn [negb]; [|reflexivity].
  unfold ev_membership, get_str. fold (string_prop (e_content ev) s!"membership").
  destruct (string_prop (e_content ev) s!"membership") as [m|]; [|reflexivity].
  destruct (str_eqb m s!"join"); [apply join_eq|].
  destruct (str_eqb m s!"invite").
  { unfold check_room_member_invite, third_party_invite, optional_prop.
    destruct (lookup s!"third_party_invite" (e_content ev)) as [tpi|]; [|apply invite_eq].
    destruct tpi as [| | | |l|t]; try apply invite_eq;
      try (unfold rule_third_party_invite; cbn [run]; destruct (membership_of st target) as [m'|];
           [destruct (str_eqb m' s!"ban")|]; reflexivity).
    - discriminate.
    - destruct (lookup s!"signed" t) as [sg|] eqn:Es.
      2:{ unfold rule_third_party_invite; rewrite Es; cbn [run].
          destruct (membership_of st target) as [m'|]; [destruct (str_eqb m' s!"ban")|]; reflexivity. }
      destruct sg as [| | | | |signed];
        try (unfold rule_third_party_invite; rewrite Es; cbn [run];
             destruct (membership_of st target) as [m'|]; [destruct (str_eqb m' s!"ban")|]; reflexivity).
      apply orb_false_iff in Hsh as [Hsig Hpk].
      apply tpi_eq; [exact Es| |].
      + intros sigs E. rewrite E in Hsig. exact Hsig.
      + intros token te l Et Ete El. rewrite Et, Ete, El in Hpk. exact Hpk. }
  destruct (str_eqb m s!"leave"); [apply leave_eq|].
  destruct (str_eqb m s!"ban"); [apply ban_eq|].
  rewrite (ra_knocking _ _ A).
  destruct (str_eqb m s!"knock"); cbn [andb]; [|reflexivity].
  destruct (7 <=? v); [apply knock_eq|reflexivity].
Qed.

(** ** m.room.power_levels *)
Lemma forallb_fields (P : level_field -> bool) :
  forallb (fun f => P (fmap f)) all_fields = forallb P level_fields.
Proof.
  cbn [forallb all_fields level_fields fmap].
  destruct (P Ban), (P Kick), (P Redact), (P StateDefault), (P Invite), (P EventsDefault),
    (P UsersDefault); reflexivity.
Qed.

Lemma forallb_pointwise {X} (f g : X -> bool) l :
  (forall x, f x = g x) -> forallb f l = forallb g l.
Proof. intros H. induction l as [|x l IH]; cbn [forallb]; [reflexivity|]. now rewrite H, IH. Qed.

Definition is_some {X} (o : option X) : bool := match o with Some _ => true | None => false end.

Lemma int_fields_map_none p :
  forallb (fun f => is_some (get_as_int r p f)) all_fields = false -> int_fields_map r p = None.
Proof.
  unfold int_fields_map. cbn [forallb all_fields int_fields_map_aux].
  destruct (get_as_int r p FUsersDefault); cbn [is_some andb]; [|reflexivity].
  destruct (get_as_int r p FEventsDefault); cbn [is_some andb]; [|reflexivity].
  destruct (get_as_int r p FStateDefault); cbn [is_some andb]; [|reflexivity].
  destruct (get_as_int r p FBan); cbn [is_some andb]; [|reflexivity].
  destruct (get_as_int r p FRedact); cbn [is_some andb]; [|reflexivity].
  destruct (get_as_int r p FKick); cbn [is_some andb]; [|reflexivity].
  destruct (get_as_int r p FInvite); cbn [is_some andb]; [|reflexivity].
  discriminate.
Qed.

Lemma int_fields_map_some p :
  forallb (fun f => is_some (get_as_int r p f)) all_fields = true ->
  exists l, int_fields_map r p = Some l /\ forall f, get_as_int r p f = Some (field_get f l).
Proof.
  unfold int_fields_map. cbn [forallb all_fields int_fields_map_aux].
  destruct (get_as_int r p FUsersDefault) as [o1|] eqn:E1; cbn [is_some andb]; [|discriminate].
  destruct (get_as_int r p FEventsDefault) as [o2|] eqn:E2; cbn [is_some andb]; [|discriminate].
  destruct (get_as_int r p FStateDefault) as [o3|] eqn:E3; cbn [is_some andb]; [|discriminate].
  destruct (get_as_int r p FBan) as [o4|] eqn:E4; cbn [is_some andb]; [|discriminate].
  destruct (get_as_int r p FRedact) as [o5|] eqn:E5; cbn [is_some andb]; [|discriminate].
  destruct (get_as_int r p FKick) as [o6|] eqn:E6; cbn [is_some andb]; [|discriminate].
  destruct (get_as_int r p FInvite) as [o7|] eqn:E7; cbn [is_some andb]; [|discriminate].
  intros _. eexists. split; [reflexivity|].
  intros f. destruct f; rewrite ?E1, ?E2, ?E3, ?E4, ?E5, ?E6, ?E7;
    destruct o1, o2, o3, o4, o5, o6, o7; reflexivity.
Qed.

Lemma check_maps_spec current new sl rej rej' :
  (forall k z, rej k z = rej' k z) ->
  check_power_level_maps current new sl rej = entries_rule current new sl rej'.
Proof.
  intros H. unfold check_power_level_maps, entries_rule. apply forallb_pointwise. intros k.
  destruct (olookup k current) as [c|], (olookup k new) as [n|]; cbn [oZ_eqb]; rewrite <- ?H.
  - destruct (c =? n)%Z; cbn [orb]; [reflexivity|]. destruct (rej k c); cbn [orb negb andb]; [reflexivity|]. lia.
  - now rewrite orb_false_r.
  - cbn [orb]. lia.
  - reflexivity.
Qed.

Lemma own_levels_typed_spec ev :
  own_levels_typed v ev =
  forallb (fun f => is_some (get_as_int r ev f)) all_fields
  && is_some (pl_events r ev) && is_some (pl_notifications r ev).
Proof.
  unfold own_levels_typed, pl_notifications. rewrite !(get_as_int_map_spec v r A).
  unfold any_key. fold all_keys. unfold is_some at 2. rewrite (is_some_pl_events v r A).
  rewrite <- (forallb_fields (fun f => match raw_level v ev f with Some _ => true | None => false end)).
  rewrite (forallb_pointwise (fun f => match raw_level v ev (fmap f) with Some _ => true | None => false end)
             (fun f => is_some (get_as_int r ev f))).
  - reflexivity.
  - intros f. now rewrite (get_as_int_spec v r A).
Qed.

Lemma andb4 a b c d a' b' c' d' :
  a = a' -> b = b' -> c = c' -> d = d' -> a && b && c && d = a' && b' && c' && d'.
Proof. now intros -> -> -> ->. Qed.

Lemma power_levels_eq ev current sl :
  (v <=? 9) && negb (own_levels_typed v ev) = false ->
  events_ok (Some ev) -> events_ok current ->
  check_room_power_levels uid_ok r ev current sl = rule_power_levels uid_ok v ev current sl.
Proof.
  intros Hcls [Hs1 Ha1] Hcur. unfold check_room_power_levels, rule_power_levels.
  fold (own_levels_typed v ev).
  assert (Hpre : (if 10 <=? v then own_levels_typed v ev else true) = own_levels_typed v ev).
  { destruct (N.leb_spec 10 v); [reflexivity|].
    destruct (own_levels_typed v ev); [reflexivity|]. cbn [negb] in Hcls. lia. }
  rewrite Hpre, own_levels_typed_spec.
  destruct (forallb (fun f => is_some (get_as_int r ev f)) all_fields) eqn:Ef.
  2:{ now rewrite (int_fields_map_none _ Ef). }
  destruct (int_fields_map_some _ Ef) as [nif [-> Hnif]]. cbn [andb].
  rewrite (pl_events_spec v r A ev Hs1 Ha1).
  unfold pl_notifications, pl_users. rewrite !(get_as_int_map_spec v r A).
  unfold any_key. fold all_keys.
  destruct (level_map v all_keys ev s!"events") as [nev|]; cbn [is_some andb]; [|reflexivity].
  destruct (level_map v all_keys ev s!"notifications") as [nno|]; cbn [is_some andb]; [|reflexivity].
  destruct (level_map v uid_ok ev s!"users") as [nus|]; [|reflexivity].
  destruct current as [cur|]; [|reflexivity]. destruct Hcur as [Hs2 Ha2].
  rewrite (pl_events_spec v r A cur Hs2 Ha2).
  rewrite (ra_notifications _ _ A), !(get_as_int_map_spec v r A).
  apply andb4.
  - rewrite <- (forallb_fields (fun f =>
      match raw_level v cur f with
      | Some c => match raw_level v ev f with
                  | Some n => oZ_eqb c n || ((effective c f <=? sl)%Z && (effective n f <=? sl)%Z)
                  | None => false end
      | None => false end)).
    apply forallb_pointwise. intros f.
    rewrite <- !(get_as_int_spec v r A), Hnif.
    destruct (get_as_int r cur f) as [c|]; [|reflexivity].
    rewrite !with_default_spec.
    destruct (oZ_eqb c (field_get f nif)); cbn [orb]; [reflexivity|]. lia.
  - destruct (level_map v all_keys cur s!"events") as [cev|]; [|reflexivity].
    apply check_maps_spec. intros; lia.
  - destruct (6 <=? v); [|reflexivity].
    destruct (level_map v all_keys cur s!"notifications") as [cno|]; [|reflexivity].
    apply check_maps_spec. intros; lia.
  - destruct (level_map v uid_ok cur s!"users") as [cus|]; [|reflexivity].
    apply check_maps_spec. intros k z. destruct (str_eqb k (e_sender ev)); cbn [negb andb]; [reflexivity|]. lia.
Qed.

(** ** m.room.redaction (v1-v2) *)
Lemma redaction_eq ev pl sl :
  eid_server (e_id ev) <> None ->
  check_room_redaction r ev pl sl = rule_redaction v ev pl sl.
Proof.
  intros Hwf. unfold check_room_redaction, rule_redaction.
  rewrite (int_or_default_spec v r A). cbn [fmap].
  destruct (level_of_field v pl Redact) as [rl|]; [|reflexivity].
  destruct (sl >=? rl)%Z eqn:E1, (rl <=? sl)%Z eqn:E2; try reflexivity; try lia.
  destruct (eid_server (e_id ev)) as [a|]; [|congruence].
  destruct (e_redacts ev) as [red|]; [|reflexivity].
  destruct (eid_server red); reflexivity.
Qed.

(** ** The whole check *)
Lemma existsb_pointwise {X} (f g : X -> bool) l :
  (forall x, f x = g x) -> existsb f l = existsb g l.
Proof. intros H. induction l as [|x l IH]; cbn [existsb]; [reflexivity|]. now rewrite H, IH. Qed.

Theorem auth_eq_spec ev st :
  wf_inputs v ev st -> known_deviation v ev st = false ->
  auth_check uid_ok sn_ok verify r ev st = spec_auth uid_ok sn_ok verify v ev st.
Proof.
  intros Hwf Hkd. unfold known_deviation in Hkd. apply orb_false_iff in Hkd as [Hkd Hal].
  apply orb_false_iff in Hkd as [Hpl Hsh].
  unfold wf_inputs, wf_inputsb in Hwf. apply andb_true_iff in Hwf as [Hwf Hsc].
  apply andb_true_iff in Hwf as [Hwf Hse]. unfold pl_strict in Hpl.
  unfold type_alias in Hal. apply orb_false_iff in Hal as [Hale Halc].
  assert (Hok : events_ok (st (t_power, []))).
  { unfold events_ok. destruct (st (t_power, [])); [split; assumption|exact I]. }
  unfold auth_check, auth_prog, spec_auth, is.
  destruct (str_eqb (e_type ev) t_create) eqn:Ecreate; [cbn [run]; apply create_eq|].
  unfold k_create. cbn [run]. destruct (st (t_create, [])) as [ce|]; [|reflexivity].
  rewrite (existsb_pointwise (fun i => str_eqb i (e_id ce)) (str_eqb (e_id ce)))
    by (intros; apply str_eqb_sym).
  destruct (existsb (str_eqb (e_id ce)) (e_auth ev)); cbn [negb]; [|reflexivity].
  rewrite (str_eqb_sym (server_of (e_sender ce)) (server_of (e_sender ev))).
  rewrite (ra_aliases _ _ A), (ra_redaction _ _ A).
  unfold federate, optional_prop, ostr_eqb, k_power.
  destruct (lookup s!"m.federate" (e_content ce)) as [j|]; [destruct j|]; try reflexivity;
  (destruct (negb _ && negb (str_eqb (server_of (e_sender ev)) (server_of (e_sender ce)))); [reflexivity|]);
  (destruct ((v <=? 5) && str_eqb (e_type ev) t_aliases);
   [cbn [run]; destruct (e_skey ev); reflexivity|]);
  (destruct (str_eqb (e_type ev) t_member) eqn:Emember; [now apply member_eq|]);
  crunch;
  first [ fin
        | apply power_levels_eq;
          [ rewrite andb_true_r in Hpl; exact Hpl
          | cbn [andb] in Hale; split; assumption
          | exact Hok ]
        | apply redaction_eq; cbn [negb orb] in Hwf;
          destruct (eid_server (e_id ev)); discriminate ].
Qed.

End Rules.
