(** C08.Run — case decoding, model run, and the specification evaluated on the
    implementation's verdict (the failing-input search).
    case = ( version event state oracle ); outcome = (0 ()) accepted | (1 0) rejected. *)
From Base Require Import Prelude Sx Json Rules.
From Gen Require Import RoomRules.
From C08 Require Import Types Ids Codec Model Spec Known.

Definition sx_verdict (b : bool) : sx := if b then SL [SN 0; SL []] else SL [SN 1; SN 0].

Definition impl_accepts (impl : sx) : option bool :=
  match impl with
  | SL [SN 0; _] => Some true
  | SL [SN 1; _] => Some false
  | _ => None
  end.

Definition run (x : sx) : sx :=
  match x with
  | SL [SL [v; ev; st; orc]; impl] =>
      match as_N v, event_of_sx ev, state_of_sx st, oracle_of_sx orc with
      | Some v, Some ev, Some st, Some orc =>
          match rules_of v with
          | Some R =>
              let state := state_lookup st in
              let vf := oracle_verify orc in
              let m := auth_check uid_ok sn_ok vf (authorization R) ev state in
              let ok :=
                match impl_accepts impl with
                | Some b => negb (wf_inputsb v ev state) || known_deviation v ev state
                            || Bool.eqb b (spec_auth uid_ok sn_ok vf v ev state)
                | None => false
                end in
              SL [sx_verdict m; sx_bool ok]
          | None => sx_bad
          end
      | _, _, _, _ => sx_bad
      end
  | _ => sx_bad
  end.
