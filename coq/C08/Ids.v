(** C08.Ids — concrete instances of the identifier predicates the model and the specification
    are parameterised by, used only by the correspondence runner ([Run.v]).  They follow
    ruma-identifiers-validation ([user_id::validate], [server_name::validate]) on the inputs the
    harness generates; IPv6 literals (a server name starting with '[') are outside the
    generated space and are treated as invalid here.  The theorems of C08/C09 hold for every
    choice of these predicates. *)
From Base Require Import Prelude Sx Json.
From C08 Require Import Types.

Fixpoint before_colon (s : str) : str :=
  match s with
  | [] => []
  | b :: r => if b =? colon then [] else b :: before_colon r
  end.

Definition is_alnum (b : N) : bool :=
  is_digit b || ((65 <=? b) && (b <=? 90)) || ((97 <=? b) && (b <=? 122)).

(** [u16::from_str]: optional '+', one or more digits, value <= 65535. *)
Definition port_ok (s : str) : bool :=
  let d := match s with 43 :: r => r | _ => s end in
  match parse_digits d with
  | Some z => (z <=? 65535)%Z
  | None => false
  end.

(** server_name.rs:3-47, without IPv6 literals. *)
Definition sn_ok (s : str) : bool :=
  match s with
  | [] => false
  | 91 :: _ => false
  | _ =>
      forallb (fun b => is_alnum b || (b =? 45) || (b =? 46)) (before_colon s)
      && match after_colon s with
         | None => true
         | Some p => port_ok p
         end
  end.

(** user_id.rs:6-13 + lib.rs:28-47,61-68: at most 255 bytes, leading '@', a colon, a valid
    server name after the first colon, no NUL in the localpart. *)
Definition uid_ok (s : str) : bool :=
  (N.of_nat (List.length s) <=? 255) &&
  match s with
  | 64 :: r =>
      match after_colon s with
      | Some sv => sn_ok sv && negb (existsb (fun b => b =? 0) (before_colon r))
      | None => false
      end
  | _ => false
  end.
