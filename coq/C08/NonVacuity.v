(** C08.NonVacuity — the hypotheses of the theorems are satisfiable by non-trivial inputs, and
    both verdicts occur. *)
From Base Require Import Prelude Sx Json Rules.
From Gen Require Import RoomRules.
From C08 Require Import Types Ids Model Spec Known Proofs4.

Definition nv_verify (_ _ _ : str) (_ : obj) : bool := false.

Definition nv_join_rules (rule : string) : event :=
  {| e_id := s!"$jr"; e_room := s!"!room:s1"; e_sender := s!"@alice:s1"; e_type := t_join_rules;
     e_skey := Some []; e_content := [(s!"join_rule", JStr (bytes_of_string rule))]; e_prev := [];
     e_auth := []; e_redacts := None |}.

Definition nv_knock : event :=
  {| e_id := s!"$k"; e_room := s!"!room:s1"; e_sender := s!"@bob:s1"; e_type := t_member;
     e_skey := Some s!"@bob:s1"; e_content := [(s!"membership", JStr s!"knock")];
     e_prev := [s!"$m"]; e_auth := [s!"$create"]; e_redacts := None |}.

(** A knock in a v7 room: accepted when the join rule is knock, rejected when it is public
    (the case ruma accepted before the repair) — by model and specification alike. *)
Example knock_v7_knock_room :
  wf_inputs 7 nv_knock (w_state [(k_join_rules, nv_join_rules "knock")]) /\
  known_deviation 7 nv_knock (w_state [(k_join_rules, nv_join_rules "knock")]) = false /\
  auth_check uid_ok sn_ok nv_verify (authorization rules_v7) nv_knock
    (w_state [(k_join_rules, nv_join_rules "knock")]) = true /\
  spec_auth uid_ok sn_ok nv_verify 7 nv_knock (w_state [(k_join_rules, nv_join_rules "knock")]) = true.
Proof. vm_compute. repeat split; reflexivity. Qed.

Example knock_v7_public_room :
  auth_check uid_ok sn_ok nv_verify (authorization rules_v7) nv_knock
    (w_state [(k_join_rules, nv_join_rules "public")]) = false /\
  spec_auth uid_ok sn_ok nv_verify 7 nv_knock (w_state [(k_join_rules, nv_join_rules "public")]) = false.
Proof. vm_compute. split; reflexivity. Qed.

(** v1 redaction (wf_inputs is not vacuous: an id with a server part). *)
Definition nv_redaction : event :=
  {| e_id := s!"$r:s1"; e_room := s!"!room:s1"; e_sender := s!"@alice:s1"; e_type := t_redaction;
     e_skey := None; e_content := []; e_prev := [s!"$m:s1"]; e_auth := [s!"$create"];
     e_redacts := Some s!"$x:s1" |}.
Example redaction_v1 :
  wf_inputs 1 nv_redaction (w_state []) /\
  auth_check uid_ok sn_ok nv_verify (authorization rules_v1) nv_redaction (w_state []) = true.
Proof. vm_compute. split; reflexivity. Qed.

(** String levels: accepted and rejected strings. *)
Example string_levels :
  parse_v1_string s!" +50 " = Some 50%Z /\ parse_v1_string s!"-7" = Some (-7)%Z /\
  parse_v1_string s!"++50" = None /\ parse_v1_string s!"9007199254740992" = None /\
  parse_v1_string s!"" = None.
Proof. vm_compute. repeat split; reflexivity. Qed.
