(** C08.Model — executable model of [ruma_state_res::auth_check] and its callees, in the order
    of the Rust code (event_auth.rs, event_auth/room_member.rs, events/*.rs,
    ruma-common/src/serde/strings.rs).  No proofs here.

    Conventions.
    - [Result<_, String>] is modelled up to Ok/Err: an accessor returns [option] ([None] = Err),
      a check returns [bool] ([false] = Err, whatever the message).
    - The only access to the room state is the [fetch_state] closure.  The model is a program
      [prog] whose only effect is [Read k] (= one call [fetch_state(type, state_key)]);
      [run p st] interprets it against a state.  [trace p st] is the sequence of keys read
      (C09's observation point).
    - Event contents are JSON objects without floats (canonical JSON): [Base.Json.obj].
    - External behaviour = Section variables: [uid_ok] ([UserId] parsing: user_id::validate),
      [sn_ok] (server-name validation, used by [RoomId::server_name]), [verify] (one
      third-party-invite signature check: key id parses, signature and key decode, and
      [verify_canonical_json_bytes] succeeds on the canonical JSON of [signed]). *)
From Base Require Import Prelude Sx Json Rules.
From Gen Require Import TypeAliases.
From C08 Require Import Types.

(** ** Programs over the state *)
Inductive prog : Type :=
| Ret (b : bool)
| Read (k : key) (c : option event -> prog).

Fixpoint run (p : prog) (st : state) : bool :=
  match p with
  | Ret b => b
  | Read k c => run (c (st k)) st
  end.

Fixpoint trace (p : prog) (st : state) : list key :=
  match p with
  | Ret _ => []
  | Read k c => k :: trace (c (st k)) st
  end.

(** [?]-operator on an accessor result inside a program / inside a boolean check. *)
Notation "'let?' x ':=' e 'in' k" :=
  (match e with Some x => k | None => Ret false end) (at level 200, x pattern, right associativity).
Notation "'let!' x ':=' e 'in' k" :=
  (match e with Some x => k | None => false end) (at level 200, x pattern, right associativity).
Notation "'let*' x ':=' e 'in' k" :=
  (match e with Some x => k | None => None end) (at level 200, x pattern, right associativity).

(** ** Power-level integer fields (events/power_levels.rs:344-396) *)
Inductive plfield := FUsersDefault | FEventsDefault | FStateDefault | FBan | FRedact | FKick | FInvite.

(** [RoomPowerLevelsIntField::ALL], in this order (power_levels.rs:372-380). *)
Definition all_fields : list plfield :=
  [FUsersDefault; FEventsDefault; FStateDefault; FBan; FRedact; FKick; FInvite].

Definition field_name (f : plfield) : str :=
  match f with
  | FUsersDefault => s!"users_default" | FEventsDefault => s!"events_default"
  | FStateDefault => s!"state_default" | FBan => s!"ban" | FRedact => s!"redact"
  | FKick => s!"kick" | FInvite => s!"invite"
  end.

(** [default_value] (power_levels.rs:389-396). *)
Definition field_default (f : plfield) : Z :=
  match f with
  | FUsersDefault | FEventsDefault | FInvite => 0
  | FStateDefault | FKick | FBan | FRedact => 50
  end%Z.

(** DEFAULT_CREATOR_POWER_LEVEL (power_levels.rs:25). *)
Definition creator_level : Z := 100.

(** ** String-typed power levels (ruma-common/src/serde/strings.rs:133-198) *)

Definition plus : N := 43.
Definition minus : N := 45.

(** [u64::from_str]: optional '+', then one or more digits; no '-'. *)
Definition parse_unsigned (s : str) : option Z :=
  match s with
  | b :: r => if b =? plus then parse_digits r else parse_digits s
  | [] => None
  end.

(** [i64::from_str]: optional '+' or '-', then one or more digits.  Overflow of the machine
    type is subsumed by the [js_int] range check that follows. *)
Definition parse_signed (s : str) : option Z :=
  match s with
  | b :: r =>
      if b =? plus then parse_digits r
      else if b =? minus then option_map Z.opp (parse_digits r)
      else parse_digits s
  | [] => None
  end.

Definition check_range (ok : Z -> bool) (o : option Z) : option Z :=
  match o with Some z => if ok z then Some z else None | None => None end.

(** [visit_str] (strings.rs:185-197, after the repair): trim; a leading '+' selects the
    [UInt] parser, which must not see a second sign; otherwise [Int::from_str]. *)
Definition parse_v1_string (s : str) : option Z :=
  let t := trim s in
  match t with
  | b :: w =>
      if b =? plus then
        match w with
        | b2 :: _ => if b2 =? plus then None else check_range in_uint_range (parse_unsigned w)
        | [] => check_range in_uint_range (parse_unsigned w)
        end
      else check_range in_int_range (parse_signed t)
  | [] => check_range in_int_range (parse_signed t)
  end.

(** One power-level value (power_levels.rs:102-106): [from_json_value::<Int>] when
    [integer_power_levels], else [deserialize_v1_powerlevel]. *)
Definition pl_int (r : auth_rules) (j : json) : option Z :=
  match j with
  | JInt z => if in_int_range z then Some z else None
  | JStr s => if integer_power_levels r then None else parse_v1_string s
  | _ => None
  end.

(** ** Event types as map keys.  [BTreeMap<TimelineEventType, Int>] (power_levels.rs:161-166):
    every key goes through [TimelineEventType::from], which maps the aliases of the generated
    table [Gen.TypeAliases] to their standard name; a later entry replaces an earlier one with
    the same key. *)
Definition canon_type (s : str) : str :=
  match lookup s type_aliases with Some t => t | None => s end.

Definition canon_map (m : amap Z) : amap Z :=
  fold_left (fun acc kv => insert (canon_type (fst kv)) (snd kv) acc) m [].

Section Model.
Variable uid_ok : str -> bool.
Variable sn_ok : str -> bool.
Variable verify : str -> str -> str -> obj -> bool.

(** ** Content accessors *)
Definition get_str (c : obj) (k : str) : option str :=
  match lookup k c with Some (JStr s) => Some s | _ => None end.

(** member.rs:78-91 — [membership: MembershipState], required; any string is accepted. *)
Definition ev_membership (e : event) : option str := get_str (e_content e) s!"membership".

(** member.rs:94-108 — [Option<OwnedUserId>]: absent or null = None. *)
Definition join_authorised (e : event) : option (option str) :=
  match lookup s!"join_authorised_via_users_server" (e_content e) with
  | None | Some JNull => Some None
  | Some (JStr s) => if uid_ok s then Some (Some s) else None
  | Some _ => None
  end.

(** member.rs:112-133 — [Option<ThirdPartyInvite>], [ThirdPartyInvite { signed: CanonicalJsonObject }].
    A serde-derived struct is also accepted in its sequence form [[signed]]. *)
Definition third_party_invite (e : event) : option (option obj) :=
  match lookup s!"third_party_invite" (e_content e) with
  | None | Some JNull => Some None
  | Some (JObj m) => match lookup s!"signed" m with Some (JObj sg) => Some (Some sg) | _ => None end
  | Some (JArr [JObj sg]) => Some (Some sg)
  | Some _ => None
  end.

(** create.rs:41-53 — [m.federate: Option<bool>], default true. *)
Definition federate (ce : event) : option bool :=
  match lookup s!"m.federate" (e_content ce) with
  | None | Some JNull => Some true
  | Some (JBool b) => Some b
  | Some _ => None
  end.

(** create.rs:60-77 — the creator: the create event's sender, or [content.creator: OwnedUserId]. *)
Definition creator (r : auth_rules) (ce : event) : option str :=
  if use_room_create_sender r then Some (e_sender ce)
  else match lookup s!"creator" (e_content ce) with
       | Some (JStr s) => if uid_ok s then Some s else None
       | _ => None
       end.

(** create.rs:80-91 — [creator: Option<IgnoredAny>]. *)
Definition has_creator (ce : event) : bool :=
  match lookup s!"creator" (e_content ce) with
  | None | Some JNull => false
  | Some _ => true
  end.

(** third_party_invite.rs:25-47 — [public_key: Option<_>], [public_keys: Vec<{public_key}>]
    (default empty when absent). *)
Definition one_public_key (j : json) : option str :=
  match j with
  | JObj m => match lookup s!"public_key" m with Some (JStr s) => Some s | _ => None end
  | JArr [JStr s] => Some s
  | _ => None
  end.

Definition public_keys (te : event) : option (list str) :=
  let c := e_content te in
  let* first := match lookup s!"public_key" c with
                | None | Some JNull => Some []
                | Some (JStr s) => Some [s]
                | Some _ => None
                end in
  let* rest := match lookup s!"public_keys" c with
               | None => Some []
               | Some (JArr l) => map_opt one_public_key l
               | Some _ => None
               end in
  Some (first ++ rest).

(** ** Power levels event accessors (events/power_levels.rs) *)

(** [get_as_int] (:84-120). *)
Definition get_as_int (r : auth_rules) (p : event) (f : plfield) : option (option Z) :=
  match lookup (field_name f) (e_content p) with
  | None => Some None
  | Some j => match pl_int r j with Some z => Some (Some z) | None => None end
  end.

(** [get_as_int_or_default] (:124-130). *)
Definition get_as_int_or_default (r : auth_rules) (p : event) (f : plfield) : option Z :=
  match get_as_int r p f with
  | Some (Some z) => Some z
  | Some None => Some (field_default f)
  | None => None
  end.

(** [get_as_int_map] (:133-158): every key must deserialize as [T] ([keyok]) and every value as
    a power level. *)
Fixpoint int_map_entries (r : auth_rules) (keyok : str -> bool) (m : obj) : option (amap Z) :=
  match m with
  | [] => Some []
  | (k, j) :: m' =>
      if keyok k then
        match pl_int r j, int_map_entries r keyok m' with
        | Some z, Some rest => Some ((k, z) :: rest)
        | _, _ => None
        end
      else None
  end.

Definition get_as_int_map (r : auth_rules) (keyok : str -> bool) (p : event) (field : str)
  : option (option (amap Z)) :=
  match lookup field (e_content p) with
  | None => Some None
  | Some (JObj m) => match int_map_entries r keyok m with Some x => Some (Some x) | None => None end
  | Some _ => None
  end.

Definition any_key (_ : str) : bool := true.
Definition pl_events r p :=                                                       (* :161-166 *)
  match get_as_int_map r any_key p s!"events" with
  | Some (Some m) => Some (Some (canon_map m))
  | x => x
  end.
Definition pl_notifications r p := get_as_int_map r any_key p s!"notifications". (* :169-174 *)
Definition pl_users r p := get_as_int_map r uid_ok p s!"users".                  (* :179-190 *)

(** [user_power_level] on the event (:196-207). *)
Definition ev_user_power_level (r : auth_rules) (p : event) (u : str) : option Z :=
  let* users := pl_users r p in
  match olookup u users with
  | Some z => Some z
  | None => get_as_int_or_default r p FUsersDefault
  end.

(** [RoomPowerLevelsEventOptionExt] (:283-339). *)
Definition user_power_level (r : auth_rules) (pl : option event) (u creator : str) : option Z :=
  match pl with
  | Some p => ev_user_power_level r p u
  | None => Some (if str_eqb u creator then creator_level else field_default FUsersDefault)
  end.

Definition int_or_default (r : auth_rules) (pl : option event) (f : plfield) : option Z :=
  match pl with
  | Some p => get_as_int_or_default r p f
  | None => Some (field_default f)
  end.

Definition default_field (skey : option str) : plfield :=
  match skey with Some _ => FStateDefault | None => FEventsDefault end.

Definition event_power_level (r : auth_rules) (pl : option event) (ty : str) (skey : option str)
  : option Z :=
  match pl with
  | Some p =>
      let* events := pl_events r p in
      match olookup ty events with
      | Some z => Some z
      | None => get_as_int_or_default r p (default_field skey)
      end
  | None => Some (field_default (default_field skey))
  end.

(** [int_fields_map] (:235-247): the present fields, or Err at the first ill-typed one. *)
Fixpoint int_fields_map_aux (r : auth_rules) (p : event) (fs : list plfield) : option (list (plfield * Z)) :=
  match fs with
  | [] => Some []
  | f :: fs' =>
      match get_as_int r p f with
      | None => None
      | Some o =>
          match int_fields_map_aux r p fs' with
          | None => None
          | Some rest => Some (match o with Some z => (f, z) :: rest | None => rest end)
          end
      end
  end.
Definition int_fields_map r p := int_fields_map_aux r p all_fields.

Definition plfield_eqb (a b : plfield) : bool :=
  match a, b with
  | FUsersDefault, FUsersDefault | FEventsDefault, FEventsDefault | FStateDefault, FStateDefault
  | FBan, FBan | FRedact, FRedact | FKick, FKick | FInvite, FInvite => true
  | _, _ => false
  end.

Fixpoint field_get (f : plfield) (m : list (plfield * Z)) : option Z :=
  match m with
  | [] => None
  | (g, z) :: m' => if plfield_eqb f g then Some z else field_get f m'
  end.

(** ** State reads ([FetchStateExt], event_auth.rs:564-605) *)

(** [user_membership]: no member event = leave (member.rs:57-66). *)
Definition read_membership (u : str) (k : str -> prog) : prog :=
  Read (k_member u) (fun oe =>
    match oe with
    | None => k s!"leave"
    | Some e => let? m := ev_membership e in k m
    end).

(** [join_rule]: no join-rules event is an error (event_auth.rs:595-600, join_rules.rs:24-36). *)
Definition read_join_rule (k : str -> prog) : prog :=
  Read k_join_rules (fun oe =>
    match oe with
    | None => Ret false
    | Some e => let? jr := get_str (e_content e) s!"join_rule" in k jr
    end).

Definition is (a : str) (b : str) : bool := str_eqb a b.

(** ** m.room.create (event_auth.rs:322-357) *)
Definition room_server (room : str) : option str :=
  match after_colon room with
  | Some sv => if sn_ok sv then Some sv else None
  | None => None
  end.

Definition check_room_create (r : auth_rules) (ev : event) : bool :=
  match e_prev ev with
  | _ :: _ => false                                                   (* :329 *)
  | [] =>
      match room_server (e_room ev) with
      | None => false                                                 (* :334 *)
      | Some sv =>
          if negb (str_eqb sv (server_of (e_sender ev))) then false   (* :340 *)
          else if negb (use_room_create_sender r) && negb (has_creator ev) then false  (* :350 *)
          else true
      end
  end.

(** ** m.room.power_levels (event_auth.rs:360-533) *)

(** [check_power_level_maps] (:498-533). *)
Definition check_power_level_maps (current new : option (amap Z)) (sender_level : Z)
    (reject_current : str -> Z -> bool) : bool :=
  forallb (fun k =>
    let c := olookup k current in
    let n := olookup k new in
    if oZ_eqb c n then true
    else
      let current_rejected := match c with Some z => reject_current k z | None => false end in
      let new_too_big := match n with Some z => (z >? sender_level)%Z | None => false end in
      negb (current_rejected || new_too_big))
    (okeys current ++ okeys new).

Definition with_default (o : option Z) (f : plfield) : Z :=
  match o with Some z => z | None => field_default f end.

Definition check_room_power_levels (r : auth_rules) (ev : event) (current : option event)
    (sender_level : Z) : bool :=
  let! new_int_fields := int_fields_map r ev in                    (* :370 *)
  let! new_events := pl_events r ev in                             (* :374 *)
  let! new_notifications := pl_notifications r ev in               (* :375 *)
  let! new_users := pl_users r ev in                               (* :381 *)
  match current with
  | None => true                                                   (* :386 *)
  | Some cur =>
      forallb (fun f =>                                            (* :393-414 *)
        let! c := get_as_int r cur f in
        let n := field_get f new_int_fields in
        if oZ_eqb c n then true
        else negb ((with_default c f >? sender_level)%Z || (with_default n f >? sender_level)%Z))
        all_fields
      &&
      (let! current_events := pl_events r cur in                   (* :418-434 *)
       check_power_level_maps current_events new_events sender_level
         (fun _ z => (z >? sender_level)%Z))
      &&
      (if limit_notifications_power_levels r then                  (* :438-457 *)
         let! current_notifications := pl_notifications r cur in
         check_power_level_maps current_notifications new_notifications sender_level
           (fun _ z => (z >? sender_level)%Z)
       else true)
      &&
      (let! current_users := pl_users r cur in                     (* :461-474 *)
       check_power_level_maps current_users new_users sender_level
         (fun u z => negb (str_eqb u (e_sender ev)) && (z >=? sender_level)%Z))
  end.

(** ** m.room.redaction, v1-v2 (event_auth.rs:536-562) *)
Definition check_room_redaction (r : auth_rules) (ev : event) (pl : option event)
    (sender_level : Z) : bool :=
  let! redact_level := int_or_default r pl FRedact in
  if (sender_level >=? redact_level)%Z then true
  else ostr_eqb (eid_server (e_id ev))
                (match e_redacts ev with Some i => eid_server i | None => None end).

(** ** m.room.member (event_auth/room_member.rs) *)

(** The signature loop of [check_third_party_invite] (:299-341). *)
Definition entity_verifies (keys : list str) (signed : obj) (ent : obj) : bool :=
  existsb (fun kv =>
    match snd kv with
    | JStr sg => existsb (fun pk => verify (fst kv) sg pk signed) keys
    | _ => false
    end) ent.

Fixpoint verify_entities (sigs : obj) (keys : list str) (signed : obj) : bool :=
  match sigs with
  | [] => false                                                     (* :344 *)
  | (_, JObj ent) :: rest =>
      if entity_verifies keys signed ent then true else verify_entities rest keys signed
  | _ :: _ => false                                                 (* :300-305 *)
  end.

(** [check_third_party_invite] (:254-348). *)
Definition check_third_party_invite (ev : event) (signed : obj) (target : str) : prog :=
  read_membership target (fun tm =>
    if is tm s!"ban" then Ret false else                            (* :263 *)
    let? token := get_str signed s!"token" in                       (* :269 *)
    let? mxid := get_str signed s!"mxid" in                         (* :270 *)
    if negb (str_eqb target mxid) then Ret false else               (* :273 *)
    Read (k_tpi token) (fun ot =>
      match ot with
      | None => Ret false                                           (* :279-283 *)
      | Some te =>
          if negb (str_eqb (e_sender ev) (e_sender te)) then Ret false else   (* :286 *)
          let? keys := public_keys te in                            (* :293 *)
          let? sigs := match lookup s!"signatures" signed with
                       | Some (JObj m) => Some m | _ => None end in (* :294 *)
          Ret (verify_entities sigs keys signed)
      end)).

(** [check_room_member_join] (:97-196). *)
Definition check_room_member_join (r : auth_rules) (ev : event) (target : str) (ce : event) : prog :=
  let? cr := creator r ce in                                        (* :104 *)
  let prev_is_only_create :=
    match e_prev ev with [p] => str_eqb p (e_id ce) | _ => false end in   (* :106-111 *)
  if prev_is_only_create && str_eqb target cr then Ret true else    (* :117 *)
  if negb (str_eqb (e_sender ev) target) then Ret false else        (* :122 *)
  read_membership target (fun cm =>                                 (* :126 *)
    if is cm s!"ban" then Ret false else                            (* :129 *)
    read_join_rule (fun jr =>                                       (* :133 *)
      if (is jr s!"invite" || knocking r && is jr s!"knock")
         && (is cm s!"invite" || is cm s!"join") then Ret true else (* :139-143 *)
      if restricted_join_rule r && is jr s!"restricted"
         || knock_restricted_join_rule r && is jr s!"knock_restricted" then   (* :147-148 *)
        if is cm s!"join" || is cm s!"invite" then Ret true else    (* :151 *)
        let? oa := join_authorised ev in                            (* :159 *)
        match oa with
        | None => Ret false
        | Some au =>
            read_membership au (fun am =>                           (* :170 *)
              if negb (is am s!"join") then Ret false else
              Read k_power (fun pl =>                               (* :175 *)
                let? al := user_power_level r pl au cr in
                let? il := int_or_default r pl FInvite in
                Ret (al >=? il)%Z))
        end
      else Ret (is jr s!"public"))).                                (* :191 *)

(** [check_room_member_invite] (:200-250). *)
Definition check_room_member_invite (r : auth_rules) (ev : event) (target : str) (ce : event) : prog :=
  let? otpi := third_party_invite ev in                             (* :207 *)
  match otpi with
  | Some signed => check_third_party_invite ev signed target        (* :210 *)
  | None =>
      read_membership (e_sender ev) (fun sm =>                      (* :219 *)
        if negb (is sm s!"join") then Ret false else
        read_membership target (fun tm =>                           (* :226 *)
          if is tm s!"join" || is tm s!"ban" then Ret false else
          let? cr := creator r ce in                                (* :233 *)
          Read k_power (fun pl =>
            let? sl := user_power_level r pl (e_sender ev) cr in
            let? il := int_or_default r pl FInvite in
            Ret (sl >=? il)%Z)))
  end.

(** [check_room_member_leave] (:352-413). *)
Definition check_room_member_leave (r : auth_rules) (ev : event) (target : str) (ce : event) : prog :=
  read_membership (e_sender ev) (fun sm =>                          (* :359 *)
    if str_eqb (e_sender ev) target then                            (* :365 *)
      Ret ((is sm s!"join" || is sm s!"invite") || (knocking r && is sm s!"knock"))
    else
    if negb (is sm s!"join") then Ret false else                    (* :378 *)
    let? cr := creator r ce in                                      (* :382 *)
    Read k_power (fun pl =>                                         (* :383 *)
      read_membership target (fun tm =>                             (* :385 *)
        let? sl := user_power_level r pl (e_sender ev) cr in
        let? bl := int_or_default r pl FBan in
        if is tm s!"ban" && (sl <? bl)%Z then Ret false else        (* :393 *)
        let? kl := int_or_default r pl FKick in
        let? tl := user_power_level r pl target cr in
        Ret ((sl >=? kl)%Z && (tl <? sl)%Z)))).                     (* :408 *)

(** [check_room_member_ban] (:417-450). *)
Definition check_room_member_ban (r : auth_rules) (ev : event) (target : str) (ce : event) : prog :=
  read_membership (e_sender ev) (fun sm =>                          (* :424 *)
    if negb (is sm s!"join") then Ret false else
    let? cr := creator r ce in
    Read k_power (fun pl =>
      let? sl := user_power_level r pl (e_sender ev) cr in
      let? bl := int_or_default r pl FBan in
      let? tl := user_power_level r pl target cr in
      Ret ((sl >=? bl)%Z && (tl <? sl)%Z))).                        (* :445 *)

(** [check_room_member_knock] (:454-490), with the repaired join-rule test: reject unless the
    join rule is [knock], or [knock_restricted] where that join rule exists. *)
Definition check_room_member_knock (r : auth_rules) (ev : event) (target : str) : prog :=
  read_join_rule (fun jr =>                                         (* :460 *)
    if negb (is jr s!"knock")
       && negb (knock_restricted_join_rule r && is jr s!"knock_restricted") then Ret false else
    if negb (str_eqb (e_sender ev) target) then Ret false else      (* :474 *)
    read_membership (e_sender ev) (fun sm =>                        (* :478 *)
      Ret (negb (is sm s!"ban" || is sm s!"invite" || is sm s!"join")))).

(** [check_room_member] (:28-93). *)
Definition check_room_member (r : auth_rules) (ev : event) (ce : event) : prog :=
  match e_skey ev with
  | None => Ret false                                               (* :38 *)
  | Some target =>
      if negb (uid_ok target) then Ret false else                   (* :41 *)
      let? m := ev_membership ev in                                 (* :44 *)
      if is m s!"join" then check_room_member_join r ev target ce
      else if is m s!"invite" then check_room_member_invite r ev target ce
      else if is m s!"leave" then check_room_member_leave r ev target ce
      else if is m s!"ban" then check_room_member_ban r ev target ce
      else if is m s!"knock" && knocking r then check_room_member_knock r ev target
      else Ret false
  end.

(** ** [auth_check] (event_auth.rs:146-319) *)
Definition auth_prog (r : auth_rules) (ev : event) : prog :=
  if str_eqb (e_type ev) t_create then Ret (check_room_create r ev) else   (* :154 *)
  Read k_create (fun oc =>                                          (* :193 *)
    match oc with
    | None => Ret false
    | Some ce =>
        if negb (existsb (fun i => str_eqb i (e_id ce)) (e_auth ev)) then Ret false else  (* :196 *)
        let? fed := federate ce in                                  (* :203 *)
        if negb fed && negb (str_eqb (server_of (e_sender ce)) (server_of (e_sender ev)))
        then Ret false else                                         (* :204 *)
        if special_case_room_aliases r && str_eqb (e_type ev) t_aliases then   (* :216 *)
          Ret (ostr_eqb (e_skey ev) (Some (server_of (e_sender ev))))
        else if str_eqb (e_type ev) t_member then check_room_member r ev ce    (* :236 *)
        else
        read_membership (e_sender ev) (fun sm =>                    (* :242 *)
          if negb (is sm s!"join") then Ret false else
          let? cr := creator r ce in                                (* :248 *)
          Read k_power (fun pl =>                                   (* :249 *)
            let? sl := user_power_level r pl (e_sender ev) cr in    (* :251 *)
            if str_eqb (e_type ev) t_tpi then                       (* :255 *)
              let? il := int_or_default r pl FInvite in
              Ret (negb (sl <? il)%Z)
            else
            let? need := event_power_level r pl (e_type ev) (e_skey ev) in   (* :271 *)
            if (sl <? need)%Z then Ret false else                   (* :276 *)
            if match e_skey ev with Some k => starts_with [at_sign] k | None => false end
               && negb (ostr_eqb (e_skey ev) (Some (e_sender ev)))
            then Ret false else                                     (* :285 *)
            if str_eqb (e_type ev) t_power then                     (* :294 *)
              Ret (check_room_power_levels r ev pl sl)
            else if special_case_room_redaction r && str_eqb (e_type ev) t_redaction then  (* :305 *)
              Ret (check_room_redaction r ev pl sl)
            else Ret true))
    end).

Definition auth_check (r : auth_rules) (ev : event) (st : state) : bool := run (auth_prog r ev) st.

End Model.
