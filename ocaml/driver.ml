(* Generic driver: one s-expression per input line, one per output line.
   usage: driver <Cxx>   (stdin -> stdout) *)
module ZA = Z

let rec pos_of_z (z : ZA.t) : Model.positive =
  if ZA.equal z ZA.one then Model.XH
  else if ZA.testbit z 0 then Model.XI (pos_of_z (ZA.shift_right z 1))
  else Model.XO (pos_of_z (ZA.shift_right z 1))

let n_of_int (i : int) : Model.n = if i = 0 then Model.N0 else Model.Npos (pos_of_z (ZA.of_int i))

let z_of_zt (z : ZA.t) : Model.z =
  let s = ZA.sign z in
  if s = 0 then Model.Z0 else if s > 0 then Model.Zpos (pos_of_z z) else Model.Zneg (pos_of_z (ZA.neg z))

let rec zt_of_pos (p : Model.positive) : ZA.t =
  match p with
  | Model.XH -> ZA.one
  | Model.XO q -> ZA.shift_left (zt_of_pos q) 1
  | Model.XI q -> ZA.succ (ZA.shift_left (zt_of_pos q) 1)

let zt_of_z = function Model.Z0 -> ZA.zero | Model.Zpos p -> zt_of_pos p | Model.Zneg p -> ZA.neg (zt_of_pos p)
let int_of_n = function Model.N0 -> 0 | Model.Npos p -> ZA.to_int (zt_of_pos p)

(* byte table so that strings do not rebuild positives each time *)
let byte_tbl = Array.init 256 n_of_int

let hexval c =
  match c with
  | '0' .. '9' -> Char.code c - 48
  | 'a' .. 'f' -> Char.code c - 87
  | _ -> failwith "hex"

let parse_line (s : string) : Model.sx =
  let toks = String.split_on_char ' ' s in
  let rec item toks =
    match toks with
    | [] -> failwith "eof"
    | "" :: r -> item r
    | "(" :: r ->
        let rec items acc r =
          match r with
          | ")" :: r' -> (Model.SL (List.rev acc), r')
          | "" :: r' -> items acc r'
          | _ ->
              let x, r' = item r in
              items (x :: acc) r'
        in
        items [] r
    | t :: r ->
        if t.[0] = 'N' then (Model.SN (z_of_zt (ZA.of_string (String.sub t 1 (String.length t - 1)))), r)
        else if t.[0] = 'S' then begin
          let n = (String.length t - 1) / 2 in
          let rec go i acc =
            if i < 0 then acc
            else go (i - 1) (byte_tbl.((hexval t.[1 + (2 * i)] * 16) + hexval t.[2 + (2 * i)]) :: acc)
          in
          (Model.SS (go (n - 1) []), r)
        end
        else failwith ("token " ^ t)
  in
  fst (item toks)

let rec print_sx (b : Buffer.t) (x : Model.sx) : unit =
  match x with
  | Model.SN z ->
      Buffer.add_char b 'N';
      Buffer.add_string b (ZA.to_string (zt_of_z z))
  | Model.SS l ->
      Buffer.add_char b 'S';
      List.iter (fun n -> Buffer.add_string b (Printf.sprintf "%02x" (int_of_n n))) l
  | Model.SL l ->
      Buffer.add_char b '(';
      List.iter
        (fun y ->
          Buffer.add_char b ' ';
          print_sx b y)
        l;
      Buffer.add_string b " )"

let () =
  let f = Dispatch.find Sys.argv.(1) in
  let b = Buffer.create 65536 in
  (try
     while true do
       let line = input_line stdin in
       (try print_sx b (f (parse_line line)) with
        | Stack_overflow -> Buffer.add_string b "( N-2 )"
        | Failure m -> Buffer.add_string b ("( N-3 )"));
       Buffer.add_char b '\n';
       if Buffer.length b > 60000 then begin
         print_string (Buffer.contents b);
         Buffer.clear b
       end
     done
   with End_of_file -> ());
  print_string (Buffer.contents b)
